//! `hx rl`: drives the real `passage_protocol::rate_limiter::RateLimiter` under tokio virtual time with
//! (R) walks exported from spec/RateLimiter.tla and (V) seeded random histories, and records every decision,
//! the decision of an isolated single-key instance, and the published number of tracked keys (read from the
//! `rate_limiter_size` gauge through an OpenTelemetry manual reader -- no hook in the code under test).
use crate::refcodec::Rng;
use opentelemetry_sdk::metrics::data::{AggregatedMetrics, MetricData, ResourceMetrics};
use opentelemetry_sdk::metrics::reader::MetricReader;
use opentelemetry_sdk::metrics::{InstrumentKind, ManualReader, Pipeline, SdkMeterProvider, Temporality};
use passage_protocol::rate_limiter::RateLimiter;
use serde_json::{Value, json};
use std::collections::HashMap;
use std::net::IpAddr;
use std::sync::{Arc, Weak};
use std::time::Duration;

#[derive(Debug, Clone)]
struct Shared(Arc<ManualReader>);
impl MetricReader for Shared {
    fn register_pipeline(&self, p: Weak<Pipeline>) {
        self.0.register_pipeline(p)
    }
    fn collect(&self, rm: &mut ResourceMetrics) -> opentelemetry_sdk::error::OTelSdkResult {
        self.0.collect(rm)
    }
    fn force_flush(&self) -> opentelemetry_sdk::error::OTelSdkResult {
        self.0.force_flush()
    }
    fn shutdown_with_timeout(&self, t: Duration) -> opentelemetry_sdk::error::OTelSdkResult {
        self.0.shutdown_with_timeout(t)
    }
    fn temporality(&self, k: InstrumentKind) -> Temporality {
        self.0.temporality(k)
    }
}

fn gauge(reader: &Shared) -> i64 {
    let mut rm = ResourceMetrics::default();
    if reader.collect(&mut rm).is_err() {
        return -1;
    }
    for sm in rm.scope_metrics() {
        for m in sm.metrics() {
            if m.name() == "rate_limiter_size" {
                if let AggregatedMetrics::U64(MetricData::Gauge(g)) = m.data() {
                    if let Some(dp) = g.data_points().next() {
                        return dp.value() as i64;
                    }
                }
            }
        }
    }
    -1
}

fn key_ip(k: &str) -> IpAddr {
    // "k7" -> 10.0.0.7 ; odd keys as IPv6 for variety
    let n: u32 = k.trim_start_matches('k').parse().unwrap_or(0);
    if n % 2 == 0 {
        IpAddr::from([10, (n >> 16) as u8, (n >> 8) as u8, n as u8])
    } else {
        IpAddr::from([0x2001, 0xdb8, 0, 0, 0, 0, (n >> 16) as u16, n as u16])
    }
}

/// One run: ops = [(dt ticks) | (key)], returns the recorded history.
fn run_one(d: u64, l: usize, tick_ms: u64, ops: &[Value], reader: &Shared, uptime_ms: u64) -> (Vec<Value>, bool) {
    let rt = tokio::runtime::Builder::new_current_thread().enable_all().start_paused(true).build().unwrap();
    let res = std::panic::catch_unwind(std::panic::AssertUnwindSafe(|| {
        rt.block_on(async {
            let dur = Duration::from_millis(d * tick_ms);
            let mut main: RateLimiter<IpAddr> = RateLimiter::new(dur, l);
            let mut iso: HashMap<String, RateLimiter<IpAddr>> = HashMap::new();
            // the limiter has been up (and idle) for a while before the history starts: weeks are nothing special
            if uptime_ms > 0 {
                tokio::time::advance(Duration::from_millis(uptime_ms)).await;
            }
            let mut t: u64 = 0;
            let mut h = vec![];
            for op in ops {
                if op["op"] == "flood" {
                    // very many OTHER keys visit once each, at this very moment (not part of the recorded history of the key under judgement)
                    for j in 0..op["n"].as_u64().unwrap_or(0) {
                        let _ = main.enqueue(key_ip(&format!("k{}", 1000 + j)));
                    }
                } else if op["op"] == "adv" {
                    let dt = op["dt"].as_u64().unwrap_or(0);
                    tokio::time::advance(Duration::from_millis(dt * tick_ms)).await;
                    t += dt;
                } else {
                    let k = op["k"].as_str().unwrap_or("k0").to_string();
                    let ok = main.enqueue(key_ip(&k));
                    let size = if ok { gauge(reader) } else { -1 };
                    let isol = iso.entry(k.clone()).or_insert_with(|| RateLimiter::new(dur, l)).enqueue(key_ip(&k));
                    h.push(json!({"t": t, "k": k, "ok": ok, "iso": isol, "size": size, "walkOk": op.get("ok").cloned().unwrap_or(Value::Bool(ok))}));
                }
            }
            h
        })
    }));
    match res {
        Ok(h) => (h, false),
        Err(_) => (vec![], true),
    }
}

fn random_ops(r: &mut Rng, d: u64, nkeys: u64, len: usize) -> Vec<Value> {
    let mut ops = vec![];
    // time steps: zero (no adv), sub-window, exactly D, multiples of D, beyond 4D
    for _ in 0..len {
        match r.below(10) {
            0 => ops.push(json!({"op": "adv", "dt": d})),
            1 => ops.push(json!({"op": "adv", "dt": 2 * d})),
            2 => ops.push(json!({"op": "adv", "dt": 4 * d + r.below(3)})),
            3 | 4 => ops.push(json!({"op": "adv", "dt": 1 + r.below(d.max(1))})),
            _ => {
                // bursty: the same key several times
                let k = format!("k{}", 1 + r.below(nkeys));
                for _ in 0..=r.below(3) {
                    ops.push(json!({"op": "enq", "k": k}));
                }
            }
        }
    }
    ops
}

pub fn main(args: &[String]) {
    let mut input = None;
    let mut output = None;
    let mut seed = 1u64;
    let mut random = 0usize;
    let mut len = 100usize;
    let mut it = args.iter();
    while let Some(a) = it.next() {
        match a.as_str() {
            "--in" => input = it.next().cloned(),
            "--out" => output = it.next().cloned(),
            "--seed" => seed = it.next().and_then(|s| s.parse().ok()).unwrap_or(1),
            "--random" => random = it.next().and_then(|s| s.parse().ok()).unwrap_or(0),
            "--len" => len = it.next().and_then(|s| s.parse().ok()).unwrap_or(100),
            _ => {}
        }
    }
    std::panic::set_hook(Box::new(|_| {}));
    // the gauge is process-global: install the reader before the limiter publishes for the first time
    let reader = Shared(Arc::new(ManualReader::builder().build()));
    let provider = SdkMeterProvider::builder().with_reader(reader.clone()).build();
    opentelemetry::global::set_meter_provider(provider);

    let mut out = String::new();
    // uptimes that put the history across 2^31 / 2^32 milliseconds (24.9 / 49.7 days) and 2^32 seconds-worth of nothing in particular
    let uptime = |sel: u64, within_ms: u64| -> u64 {
        match sel % 5 {
            1 => (1u64 << 32) - within_ms,
            2 => (1u64 << 31) - within_ms,
            3 => 3 * (1u64 << 32) + within_ms,
            _ => 0,
        }
    };
    let mut emit = |src: &str, d: u64, l: usize, tick: u64, ops: &[Value], h: Vec<Value>, panic: bool, up: u64| {
        let rec = json!({"src": src, "cfg": {"D": d, "L": l, "tickMs": tick}, "ops": ops.len(), "h": h, "panic": panic, "uptimeMs": up});
        out.push_str(&rec.to_string());
        out.push('\n');
    };
    if let Some(p) = input {
        let text = std::fs::read_to_string(p).expect("read input");
        for (i, line) in text.lines().filter(|l| !l.trim().is_empty()).enumerate() {
            let w: Value = serde_json::from_str(line).expect("json");
            let d = w["D"].as_u64().unwrap_or(1);
            let l = w["L"].as_u64().unwrap_or(1) as usize;
            let ops = w["walk"].as_array().cloned().unwrap_or_default();
            // dyadic tick lengths so that the f32 arithmetic of the code is exact
            let tick = [250u64, 1000, 500, 125][(seed as usize + i) % 4];
            let total: u64 = ops.iter().map(|o| o["dt"].as_u64().unwrap_or(0)).sum::<u64>() * tick;
            let up = uptime(seed + i as u64, total / 2 + 1);
            let (h, panic) = run_one(d, l, tick, &ops, &reader, up);
            emit("walk", d, l, tick, &ops, h, panic, up);
        }
    }
    if random > 0 {
        // one key uses up its budget; 70,000 (thorough: 300,000) other keys visit once each at the same moment; the key is still refused
        for (d, l) in [(4u64, 3usize), (2, 1)] {
            let mut ops: Vec<Value> = (0..=l).map(|_| json!({"op": "enq", "k": "k1"})).collect();
            ops.push(json!({"op": "flood", "n": if random > 1000 { 300_000 } else { 70_000 }}));
            ops.push(json!({"op": "enq", "k": "k1"}));
            ops.push(json!({"op": "enq", "k": "k1"}));
            let (h, panic) = run_one(d, l, 1000, &ops, &reader, 0);
            emit("flood", d, l, 1000, &ops, h, panic, 0);
        }
    }
    let mut r = Rng::new(seed ^ 0xabcdef);
    for _ in 0..random {
        let d = [1u64, 2, 4, 8][r.below(4) as usize];
        let l = 1 + r.below(4) as usize;
        let nkeys = [1u64, 2, 3, 16][r.below(4) as usize];
        let tick = [250u64, 1000, 500, 125][r.below(4) as usize];
        let ops = random_ops(&mut r, d, nkeys, len);
        let total: u64 = ops.iter().map(|o| o["dt"].as_u64().unwrap_or(0)).sum::<u64>() * tick;
        let up = uptime(r.below(5), 1 + r.below(total.max(1)));
        let (h, panic) = run_one(d, l, tick, &ops, &reader, up);
        emit("random", d, l, tick, &ops, h, panic, up);
    }
    std::fs::write(output.expect("--out"), out).expect("write output");
}
