//! A scripted Minecraft client over real TCP (for the listener-level checks C14-C17).
use crate::refcodec::*;
use rsa::pkcs8::DecodePublicKey;
use rsa::rand_core::UnwrapErr;
use rsa::{Pkcs1v15Encrypt, RsaPublicKey};
use serde_json::{Value, json};
use std::net::{IpAddr, SocketAddr};
use std::time::{Duration, Instant};
use tokio::io::{AsyncReadExt, AsyncWriteExt};
use tokio::net::{TcpSocket, TcpStream};

pub struct Tcp {
    pub s: TcpStream,
    pub enc: Option<RefCfb8>,
    pub dec: Option<RefCfb8>,
    pub inbuf: Vec<u8>,
    pub bytes_received: usize,
    pub t0: Instant,
    pub eof: bool,
    /// the client idles this long before it answers the authentication cookie request
    pub cookie_delay: Option<Duration>,
    /// while Some: everything "sent" is collected here and goes out in ONE write when the client next waits for the server
    /// (a PROXY header and the first frames in the same segment)
    pub corked: Option<Vec<u8>>,
}

pub enum Recv {
    Frame(i32, Vec<u8>),
    Eof,
    Timeout,
}

impl Tcp {
    pub async fn connect(addr: SocketAddr, local: Option<IpAddr>) -> std::io::Result<Self> {
        let sock = if addr.is_ipv4() { TcpSocket::new_v4()? } else { TcpSocket::new_v6()? };
        if let Some(ip) = local {
            sock.bind(SocketAddr::new(ip, 0))?;
        }
        let s = sock.connect(addr).await?;
        s.set_nodelay(true)?;
        Ok(Tcp { s, enc: None, dec: None, inbuf: vec![], bytes_received: 0, t0: Instant::now(), eof: false, cookie_delay: None, corked: None })
    }
    pub fn from_stream(s: TcpStream) -> Self {
        Tcp { s, enc: None, dec: None, inbuf: vec![], bytes_received: 0, t0: Instant::now(), eof: false, cookie_delay: None, corked: None }
    }
    pub fn ms(&self) -> u64 {
        self.t0.elapsed().as_millis() as u64
    }
    pub async fn send_raw(&mut self, b: &[u8]) -> bool {
        if let Some(c) = &mut self.corked {
            c.extend_from_slice(b);
            return true;
        }
        self.s.write_all(b).await.is_ok()
    }
    /// From now on collect what is sent; it leaves in one write at the next `recv` / `wait_eof` / `uncork`.
    pub fn cork(&mut self) {
        if self.corked.is_none() {
            self.corked = Some(vec![]);
        }
    }
    pub async fn uncork(&mut self) -> bool {
        match self.corked.take() {
            Some(c) if !c.is_empty() => self.s.write_all(&c).await.is_ok(),
            _ => true,
        }
    }
    pub async fn send_frame(&mut self, id: i32, body: &[u8]) -> bool {
        let mut f = frame(id, body);
        if let Some(e) = &mut self.enc {
            f = e.encrypt(&f);
        }
        self.send_raw(&f).await
    }
    pub fn enable_encryption(&mut self, secret: &[u8; 16]) {
        self.enc = Some(RefCfb8::new(secret));
        self.dec = Some(RefCfb8::new(secret));
    }
    /// Next complete frame, EOF, or nothing within `wait`.
    pub async fn recv(&mut self, wait: Duration) -> Recv {
        let _ = self.uncork().await;
        let deadline = Instant::now() + wait;
        loop {
            let (frames, used) = split_frames(&self.inbuf);
            if let Some((id, body)) = frames.into_iter().next() {
                // consume exactly one frame
                let mut c = Cur::new(&self.inbuf);
                let len = c.varint().unwrap_or(0) as usize;
                let total = c.p + len;
                self.inbuf.drain(..total.min(used.max(total)).min(self.inbuf.len()));
                return Recv::Frame(id, body);
            }
            if self.eof {
                return Recv::Eof;
            }
            let left = deadline.saturating_duration_since(Instant::now());
            if left.is_zero() {
                return Recv::Timeout;
            }
            let mut buf = [0u8; 4096];
            match tokio::time::timeout(left, self.s.read(&mut buf)).await {
                Err(_) => return Recv::Timeout,
                Ok(Ok(0)) | Ok(Err(_)) => {
                    self.eof = true;
                }
                Ok(Ok(n)) => {
                    self.bytes_received += n;
                    let mut data = buf[..n].to_vec();
                    if let Some(d) = &mut self.dec {
                        data = d.decrypt(&data);
                    }
                    self.inbuf.extend_from_slice(&data);
                }
            }
        }
    }
    /// After the server's end of stream: is the connection gone for good? Keeps writing for half a second; a socket the server
    /// really closed answers with a reset, so a write fails. (A server that only half-closed and keeps reading accepts them all.)
    pub async fn closed_for_good(&mut self) -> bool {
        for _ in 0..6 {
            if self.s.write_all(&[0u8; 16]).await.is_err() {
                return true;
            }
            tokio::time::sleep(Duration::from_millis(100)).await;
        }
        false
    }
    /// Waits until the server closes the connection (or `wait` passes); returns the ms at which EOF was seen.
    pub async fn wait_eof(&mut self, wait: Duration) -> Option<u64> {
        let _ = self.uncork().await;
        let deadline = Instant::now() + wait;
        loop {
            if self.eof {
                return Some(self.ms());
            }
            let left = deadline.saturating_duration_since(Instant::now());
            if left.is_zero() {
                return None;
            }
            let mut buf = [0u8; 4096];
            match tokio::time::timeout(left, self.s.read(&mut buf)).await {
                Err(_) => return None,
                Ok(Ok(0)) | Ok(Err(_)) => {
                    self.eof = true;
                    return Some(self.ms());
                }
                Ok(Ok(n)) => {
                    self.bytes_received += n;
                }
            }
        }
    }
}

pub fn body_handshake(protocol: i32, host: &str, port: u16, next: i32) -> Vec<u8> {
    let mut b = Vec::new();
    put_varint(&mut b, protocol);
    put_string(&mut b, host);
    b.extend_from_slice(&port.to_be_bytes());
    put_varint(&mut b, next);
    b
}

pub fn body_cookie(key: &str, payload: Option<&[u8]>) -> Vec<u8> {
    let mut b = Vec::new();
    put_string(&mut b, key);
    b.push(payload.is_some() as u8);
    if let Some(p) = payload {
        put_bytes(&mut b, p);
    }
    b
}

pub fn body_client_info(locale: &str) -> Vec<u8> {
    let mut b = Vec::new();
    put_string(&mut b, locale);
    b.push(10);
    put_varint(&mut b, 0);
    b.push(1);
    b.push(0x7f);
    put_varint(&mut b, 1);
    b.push(0);
    b.push(1);
    put_varint(&mut b, 0);
    b
}

/// PROXY protocol headers (v1 text, v2 binary) announcing `src` -> `dst`.
pub fn proxy_v1(src: SocketAddr, dst: SocketAddr) -> Vec<u8> {
    let fam = if src.is_ipv4() { "TCP4" } else { "TCP6" };
    format!("PROXY {fam} {} {} {} {}\r\n", src.ip(), dst.ip(), src.port(), dst.port()).into_bytes()
}
pub fn proxy_v2(src: SocketAddr, dst: SocketAddr) -> Vec<u8> {
    let mut h = vec![0x0D, 0x0A, 0x0D, 0x0A, 0x00, 0x0D, 0x0A, 0x51, 0x55, 0x49, 0x54, 0x0A, 0x21];
    match (src, dst) {
        (SocketAddr::V4(s), SocketAddr::V4(d)) => {
            h.push(0x11);
            h.extend_from_slice(&12u16.to_be_bytes());
            h.extend_from_slice(&s.ip().octets());
            h.extend_from_slice(&d.ip().octets());
            h.extend_from_slice(&s.port().to_be_bytes());
            h.extend_from_slice(&d.port().to_be_bytes());
        }
        (s, d) => {
            let to6 = |a: SocketAddr| match a.ip() {
                IpAddr::V6(x) => x.octets(),
                IpAddr::V4(x) => x.to_ipv6_mapped().octets(),
            };
            h.push(0x21);
            h.extend_from_slice(&36u16.to_be_bytes());
            h.extend_from_slice(&to6(s));
            h.extend_from_slice(&to6(d));
            h.extend_from_slice(&s.port().to_be_bytes());
            h.extend_from_slice(&d.port().to_be_bytes());
        }
    }
    h
}

/// Status exchange; `pad_to` pads the handshake frame (whole frame length field value) to exactly that many bytes.
/// Returns "served" | "closed" | "timeout".
pub async fn status_exchange(t: &mut Tcp, frame_len: Option<usize>, wait: Duration) -> String {
    let mut host = "h".to_string();
    if let Some(n) = frame_len {
        // frame length value = id(1) + protocol varint(2 for 770) + string prefix + host + port(2) + next(1)
        let fixed = 1 + 2 + 2 + 1;
        let mut hl = n.saturating_sub(fixed + 1);
        if hl >= 128 {
            hl = n.saturating_sub(fixed + 2);
        }
        host = "a".repeat(hl);
    }
    let hs = body_handshake(770, &host, 25565, 1);
    if !t.send_frame(0, &hs).await || !t.send_frame(0, &[]).await {
        return "closed".into();
    }
    match t.recv(wait).await {
        Recv::Frame(0, _) => {
            let _ = t.send_frame(1, &7u64.to_be_bytes()).await;
            match t.recv(wait).await {
                Recv::Frame(1, _) => "served".into(),
                Recv::Eof => "closed".into(),
                _ => "timeout".into(),
            }
        }
        Recv::Frame(_, _) => "other".into(),
        Recv::Eof => "closed".into(),
        Recv::Timeout => "timeout".into(),
    }
}

/// A pinger that only looks at the status: handshake, Status Request, reads the Status Response and hangs up without a Ping.
/// Returns "served" | "closed" | "timeout".
pub async fn status_glance(t: &mut Tcp, wait: Duration) -> String {
    let hs = body_handshake(770, "h", 25565, 1);
    if !t.send_frame(0, &hs).await || !t.send_frame(0, &[]).await {
        return "closed".into();
    }
    match t.recv(wait).await {
        Recv::Frame(0, _) => "served".into(),
        Recv::Frame(_, _) => "other".into(),
        Recv::Eof => "closed".into(),
        Recv::Timeout => "timeout".into(),
    }
}

pub struct LoginObs {
    pub asked_auth_cookie: bool,
    pub enc_req_auth: Option<bool>,
    pub login_success: Option<(String, u128)>,
    pub reached: String,
}

/// Login up to (and including) Login Success. intent: 2 Login, 3 Transfer. stop_after: "handshake" | "loginstart" |
/// "session" | "authcookie" | "encresp" | "success".
pub async fn login(t: &mut Tcp, intent: i32, name: &str, uuid: u128, auth_cookie: Option<Vec<u8>>, stop_after: &str, wait: Duration) -> LoginObs {
    login_to(t, intent, "play.example.org", 25565, name, uuid, auth_cookie, stop_after, wait).await
}

/// `login` with the host name and port the client says it connected with.
#[allow(clippy::too_many_arguments)]
pub async fn login_to(t: &mut Tcp, intent: i32, host: &str, port: u16, name: &str, uuid: u128, auth_cookie: Option<Vec<u8>>, stop_after: &str, wait: Duration) -> LoginObs {
    let mut o = LoginObs { asked_auth_cookie: false, enc_req_auth: None, login_success: None, reached: "start".into() };
    let secret = [0x42u8; 16];
    if !t.send_frame(0, &body_handshake(770, host, port, intent)).await {
        return o;
    }
    o.reached = "handshake".into();
    if stop_after == "handshake" {
        return o;
    }
    let mut ls = Vec::new();
    put_string(&mut ls, name);
    ls.extend_from_slice(&uuid.to_be_bytes());
    if !t.send_frame(0, &ls).await {
        return o;
    }
    o.reached = "loginstart".into();
    if stop_after == "loginstart" {
        return o;
    }
    loop {
        match t.recv(wait).await {
            Recv::Frame(5, body) => {
                let key = Cur::new(&body).string().unwrap_or_default();
                if key == "passage:session" {
                    let _ = t.send_frame(4, &body_cookie("passage:session", None)).await;
                    o.reached = "session".into();
                    if stop_after == "session" {
                        return o;
                    }
                } else {
                    o.asked_auth_cookie = true;
                    if let Some(d) = t.cookie_delay {
                        tokio::time::sleep(d).await;
                    }
                    let _ = t.send_frame(4, &body_cookie("passage:authentication", auth_cookie.as_deref())).await;
                    o.reached = "authcookie".into();
                    if stop_after == "authcookie" {
                        return o;
                    }
                }
            }
            Recv::Frame(1, body) => {
                let mut c = Cur::new(&body);
                let (_sid, pk, tok, auth) = (c.string(), c.bytes().unwrap_or_default(), c.bytes().unwrap_or_default(), c.bool());
                o.enc_req_auth = auth;
                o.reached = "encreq".into();
                if stop_after == "encreq" {
                    return o;
                }
                let Ok(pk) = RsaPublicKey::from_public_key_der(&pk) else { return o };
                let mut rng = UnwrapErr(rand::rngs::SysRng);
                let es = pk.encrypt(&mut rng, Pkcs1v15Encrypt, &secret).unwrap();
                let et = pk.encrypt(&mut rng, Pkcs1v15Encrypt, &tok).unwrap();
                let mut b = Vec::new();
                put_bytes(&mut b, &es);
                put_bytes(&mut b, &et);
                let _ = t.send_frame(1, &b).await;
                t.enable_encryption(&secret);
                o.reached = "encresp".into();
                if stop_after == "encresp" {
                    return o;
                }
            }
            Recv::Frame(2, body) => {
                let mut c = Cur::new(&body);
                let (u, n) = (c.u128().unwrap_or(0), c.string().unwrap_or_default());
                o.login_success = Some((n, u));
                o.reached = "success".into();
                return o;
            }
            Recv::Frame(_, _) => {}
            Recv::Eof | Recv::Timeout => return o,
        }
    }
}

/// Configuration phase after Login Success: acknowledges, optionally sends Client Information, echoes keep-alives
/// (if `echo`), until Transfer / Disconnect / EOF / `wait`. Returns a JSON summary.
pub async fn configuration(t: &mut Tcp, send_info: bool, echo: bool, wait: Duration) -> Value {
    configuration_loc(t, if send_info { Some("en_US") } else { None }, echo, wait).await
}

/// `configuration` reporting the given locale in Client Information; a Disconnect's reason is returned as `reason`
/// (the text of a TAG_String component, or "compound" for anything else).
pub async fn configuration_loc(t: &mut Tcp, locale: Option<&str>, echo: bool, wait: Duration) -> Value {
    let _ = t.send_frame(3, &[]).await;
    if let Some(l) = locale {
        let _ = t.send_frame(0, &body_client_info(l)).await;
    }
    let mut reason = json!("none");
    let deadline = Instant::now() + wait;
    let mut cookies = vec![];
    let mut keepalives = 0;
    let mut end = "timeout".to_string();
    let mut transfer = json!("none");
    loop {
        let left = deadline.saturating_duration_since(Instant::now());
        if left.is_zero() {
            break;
        }
        match t.recv(left).await {
            Recv::Frame(4, body) => {
                keepalives += 1;
                if echo {
                    let _ = t.send_frame(4, &body).await;
                }
            }
            Recv::Frame(0x0A, body) => {
                let mut c = Cur::new(&body);
                let (k, p) = (c.string().unwrap_or_default(), c.bytes().unwrap_or_default());
                cookies.push(json!({"key": k, "payload": hex(&p)}));
            }
            Recv::Frame(0x0B, body) => {
                let mut c = Cur::new(&body);
                transfer = json!({"host": c.string().unwrap_or_default(), "port": c.varint().unwrap_or(-1)});
                end = "transfer".into();
                break;
            }
            Recv::Frame(2, body) => {
                end = "disconnect".into();
                reason = if body.len() >= 3 && body[0] == 8 {
                    let n = u16::from_be_bytes([body[1], body[2]]) as usize;
                    body.get(3..3 + n).and_then(crate::refcodec::mutf8_decode).map(|s| json!(s)).unwrap_or(json!("undecodable"))
                } else {
                    json!("compound")
                };
                break;
            }
            Recv::Frame(_, _) => {}
            Recv::Eof => {
                end = "eof".into();
                break;
            }
            Recv::Timeout => break,
        }
    }
    json!({"end": end, "transfer": transfer, "cookies": cookies, "keepalives": keepalives, "at_ms": t.ms(), "reason": reason})
}
