//! Shared parts of the conformance harnesses: the reference codec / crypto and a small Minecraft client over
//! real TCP, written from the protocol description (independent of the code under test).
pub mod refcodec;
pub mod tcpclient;
