//! hx wire: replay of the test vectors exported by TLC from spec/MC_Wire.tla (C09) into passage-packets.
//!
//! The harness only DRIVES and RECORDS.  For every vector it builds the Rust value from the vector's abstract
//! `value`, lets the crate encode it, lets the crate decode the vector's `bytes` (the encoding according to the
//! specification), and writes what happened as one NDJSON line.  Judging is done by TLC (spec/Trace_Wire.tla).
//!
//! Abstraction table (fixed here, before any run):
//!   integer fields           JSON integers
//!   64-bit numbers           [l0,l1,l2,l3] 16-bit limbs, least significant first  <->  l0 | l1<<16 | l2<<32 | l3<<48
//!   String                   array of its UTF-8 bytes
//!   Vec<u8>, [u8; 32], Uuid  array of bytes (Uuid in textual order)
//!   Option<T>                {"some":false} / {"some":true,"v":..}
//!   enums                    the variant name
//!   text component String    {"form":"string","s":bytes} = that text; {"form":"compound","k":bytes,"v":bytes} = the compact
//!                            JSON object {"k":"v"}; anything else re-abstracts to {"form":"other:.."}
//!   unit structs             []
//! A concrete value without a label becomes "other:<..>" so that it can never equal an expected value.
use passage_packets::configuration as cfgp;
use passage_packets::handshake as hsp;
use passage_packets::login as lgp;
use passage_packets::status as stp;
use passage_packets::{
    AsyncReadPacket, AsyncWritePacket, ChatMode, DisplayedSkinParts, MainHand, Packet, ParticleStatus, ReadPacket, ResourcePackResult, State,
    WritePacket,
};
use serde_json::{json, Map, Value};
use std::io::{Cursor, Write};
use std::panic::{catch_unwind, AssertUnwindSafe};
use tokio::runtime::Runtime;
use uuid::Uuid;

// ------------------------------------------------------------------------------------------------
// abstract value <-> Rust value
// ------------------------------------------------------------------------------------------------

type R<T> = Result<T, String>;

fn field<'a>(v: &'a Value, name: &str) -> R<&'a Value> {
    v.get(name).ok_or_else(|| format!("missing field {name}"))
}

fn int(v: &Value) -> R<i64> {
    v.as_i64().ok_or_else(|| format!("not an integer: {v}"))
}

fn int_in<T: TryFrom<i64>>(v: &Value) -> R<T> {
    T::try_from(int(v)?).map_err(|_| format!("integer out of range: {v}"))
}

fn boolean(v: &Value) -> R<bool> {
    v.as_bool().ok_or_else(|| format!("not a boolean: {v}"))
}

fn bytes(v: &Value) -> R<Vec<u8>> {
    v.as_array().ok_or_else(|| format!("not a byte array: {v}"))?.iter().map(int_in::<u8>).collect()
}

fn abs_bytes(b: &[u8]) -> Value {
    Value::Array(b.iter().map(|x| json!(*x)).collect())
}

fn string(v: &Value) -> R<String> {
    String::from_utf8(bytes(v)?).map_err(|_| "string bytes are not UTF-8".to_string())
}

fn limbs(v: &Value) -> R<u64> {
    let a = v.as_array().ok_or_else(|| format!("not limbs: {v}"))?;
    if a.len() != 4 {
        return Err(format!("not 4 limbs: {v}"));
    }
    let mut out = 0u64;
    for (j, l) in a.iter().enumerate() {
        out |= u64::from(int_in::<u16>(l)?) << (16 * j);
    }
    Ok(out)
}

fn abs_limbs(x: u64) -> Value {
    json!([x & 0xffff, (x >> 16) & 0xffff, (x >> 32) & 0xffff, (x >> 48) & 0xffff])
}

fn uuid(v: &Value) -> R<Uuid> {
    let b: [u8; 16] = bytes(v)?.try_into().map_err(|_| "uuid needs 16 bytes".to_string())?;
    Ok(Uuid::from_bytes(b))
}

fn opt<T>(v: &Value, f: impl Fn(&Value) -> R<T>) -> R<Option<T>> {
    if boolean(field(v, "some")?)? {
        Ok(Some(f(field(v, "v")?)?))
    } else {
        Ok(None)
    }
}

fn abs_opt<T>(o: &Option<T>, f: impl Fn(&T) -> Value) -> Value {
    match o {
        None => json!({"some": false}),
        Some(x) => json!({"some": true, "v": f(x)}),
    }
}

fn text(v: &Value) -> R<String> {
    match field(v, "form")?.as_str() {
        Some("string") => string(field(v, "s")?),
        Some("compound") => {
            let mut m = Map::new();
            m.insert(string(field(v, "k")?)?, Value::String(string(field(v, "v")?)?));
            serde_json::to_string(&Value::Object(m)).map_err(|e| e.to_string())
        }
        _ => Err(format!("unknown text form: {v}")),
    }
}

fn abs_text(s: &String) -> Value {
    if s.starts_with('{') {
        return match serde_json::from_str::<Value>(s) {
            Ok(Value::Object(m)) if m.len() == 1 => {
                let (k, v) = m.iter().next().unwrap();
                match v {
                    Value::String(v) => json!({"form": "compound", "k": abs_bytes(k.as_bytes()), "v": abs_bytes(v.as_bytes())}),
                    other => json!({"form": format!("other:{k}={other}")}),
                }
            }
            _ => json!({"form": format!("other:{s}")}),
        };
    }
    json!({"form": "string", "s": abs_bytes(s.as_bytes())})
}

macro_rules! labels {
    ($build:ident, $abs:ident, $t:ty, [$(($l:literal, $v:path)),*]) => {
        fn $build(v: &Value) -> R<$t> {
            match v.as_str() {
                $(Some($l) => Ok($v),)*
                _ => Err(format!("other:{v}")),
            }
        }
        fn $abs(x: &$t) -> Value {
            match x { $($v => json!($l),)* }
        }
    };
}
labels!(state, abs_state, State, [("Status", State::Status), ("Login", State::Login), ("Transfer", State::Transfer)]);
labels!(chat_mode, abs_chat_mode, ChatMode, [("Enabled", ChatMode::Enabled), ("CommandsOnly", ChatMode::CommandsOnly), ("Hidden", ChatMode::Hidden)]);
labels!(main_hand, abs_main_hand, MainHand, [("Left", MainHand::Left), ("Right", MainHand::Right)]);
labels!(particle, abs_particle, ParticleStatus, [("All", ParticleStatus::All), ("Decreased", ParticleStatus::Decreased), ("Minimal", ParticleStatus::Minimal)]);
labels!(rp_result, abs_rp_result, ResourcePackResult, [
    ("Success", ResourcePackResult::Success), ("Declined", ResourcePackResult::Declined), ("DownloadFailed", ResourcePackResult::DownloadFailed),
    ("Accepted", ResourcePackResult::Accepted), ("Downloaded", ResourcePackResult::Downloaded), ("InvalidUrl", ResourcePackResult::InvalidUrl),
    ("ReloadFailed", ResourcePackResult::ReloadFailed), ("Discorded", ResourcePackResult::Discorded)]);

/// A packet type of the crate together with its abstraction.
trait Abs: Sized {
    fn build(v: &Value) -> R<Self>;
    fn abs(&self) -> Value;
}

macro_rules! unit {
    ($($t:path),*) => {$(
        impl Abs for $t {
            fn build(_v: &Value) -> R<Self> { Ok($t) }
            fn abs(&self) -> Value { json!([]) }
        }
    )*};
}
unit!(
    stp::serverbound::StatusRequestPacket,
    lgp::clientbound::SetCompressionPacket,
    lgp::clientbound::LoginPluginRequestPacket,
    lgp::serverbound::LoginPluginResponsePacket,
    lgp::serverbound::LoginAcknowledgedPacket,
    cfgp::clientbound::PluginMessagePacket,
    cfgp::clientbound::FinishConfigurationPacket,
    cfgp::clientbound::ResetChatPacket,
    cfgp::clientbound::RegistryDataPacket,
    cfgp::clientbound::RemoveResourcePackPacket,
    cfgp::clientbound::FeatureFlagsPacket,
    cfgp::clientbound::UpdateTagsPacket,
    cfgp::clientbound::KnownPacksPacket,
    cfgp::clientbound::CustomReportDetailsPacket,
    cfgp::clientbound::ServerLinksPacket,
    cfgp::serverbound::CookieResponsePacket,
    cfgp::serverbound::PluginMessagePacket,
    cfgp::serverbound::AckFinishConfigurationPacket,
    cfgp::serverbound::KnownPacksPacket
);

impl Abs for hsp::serverbound::HandshakePacket {
    fn build(v: &Value) -> R<Self> {
        Ok(Self {
            protocol_version: int_in(field(v, "protocol_version")?)?,
            server_address: string(field(v, "server_address")?)?,
            server_port: int_in(field(v, "server_port")?)?,
            next_state: state(field(v, "next_state")?)?,
        })
    }
    fn abs(&self) -> Value {
        json!({"protocol_version": self.protocol_version, "server_address": abs_bytes(self.server_address.as_bytes()),
               "server_port": self.server_port, "next_state": abs_state(&self.next_state)})
    }
}

impl Abs for stp::clientbound::StatusResponsePacket {
    fn build(v: &Value) -> R<Self> {
        Ok(Self { body: string(field(v, "body")?)? })
    }
    fn abs(&self) -> Value {
        json!({"body": abs_bytes(self.body.as_bytes())})
    }
}

impl Abs for stp::clientbound::PongPacket {
    fn build(v: &Value) -> R<Self> {
        Ok(Self { payload: limbs(field(v, "payload")?)? })
    }
    fn abs(&self) -> Value {
        json!({"payload": abs_limbs(self.payload)})
    }
}

impl Abs for stp::serverbound::PingPacket {
    fn build(v: &Value) -> R<Self> {
        Ok(Self { payload: limbs(field(v, "payload")?)? })
    }
    fn abs(&self) -> Value {
        json!({"payload": abs_limbs(self.payload)})
    }
}

impl Abs for lgp::clientbound::DisconnectPacket {
    fn build(v: &Value) -> R<Self> {
        Ok(Self { reason: string(field(v, "reason")?)? })
    }
    fn abs(&self) -> Value {
        json!({"reason": abs_bytes(self.reason.as_bytes())})
    }
}

impl Abs for lgp::clientbound::EncryptionRequestPacket {
    fn build(v: &Value) -> R<Self> {
        Ok(Self {
            server_id: string(field(v, "server_id")?)?,
            public_key: bytes(field(v, "public_key")?)?,
            verify_token: bytes(field(v, "verify_token")?)?.try_into().map_err(|_| "verify_token needs 32 bytes".to_string())?,
            should_authenticate: boolean(field(v, "should_authenticate")?)?,
        })
    }
    fn abs(&self) -> Value {
        json!({"server_id": abs_bytes(self.server_id.as_bytes()), "public_key": abs_bytes(&self.public_key),
               "verify_token": abs_bytes(&self.verify_token), "should_authenticate": self.should_authenticate})
    }
}

impl Abs for lgp::clientbound::LoginSuccessPacket {
    fn build(v: &Value) -> R<Self> {
        // "properties" is the (always empty) property array, which the struct does not have
        if field(v, "properties")?.as_array().map(|a| a.len()) != Some(0) {
            return Err("other:properties".into());
        }
        Ok(Self { user_id: uuid(field(v, "user_id")?)?, user_name: string(field(v, "user_name")?)? })
    }
    fn abs(&self) -> Value {
        json!({"user_id": abs_bytes(self.user_id.as_bytes()), "user_name": abs_bytes(self.user_name.as_bytes()), "properties": []})
    }
}

impl Abs for lgp::clientbound::CookieRequestPacket {
    fn build(v: &Value) -> R<Self> {
        Ok(Self { key: string(field(v, "key")?)? })
    }
    fn abs(&self) -> Value {
        json!({"key": abs_bytes(self.key.as_bytes())})
    }
}

impl Abs for lgp::serverbound::LoginStartPacket {
    fn build(v: &Value) -> R<Self> {
        Ok(Self { user_name: string(field(v, "user_name")?)?, user_id: uuid(field(v, "user_id")?)? })
    }
    fn abs(&self) -> Value {
        json!({"user_name": abs_bytes(self.user_name.as_bytes()), "user_id": abs_bytes(self.user_id.as_bytes())})
    }
}

impl Abs for lgp::serverbound::EncryptionResponsePacket {
    fn build(v: &Value) -> R<Self> {
        Ok(Self { shared_secret: bytes(field(v, "shared_secret")?)?, verify_token: bytes(field(v, "verify_token")?)? })
    }
    fn abs(&self) -> Value {
        json!({"shared_secret": abs_bytes(&self.shared_secret), "verify_token": abs_bytes(&self.verify_token)})
    }
}

impl Abs for lgp::serverbound::CookieResponsePacket {
    fn build(v: &Value) -> R<Self> {
        Ok(Self { key: string(field(v, "key")?)?, payload: opt(field(v, "payload")?, bytes)? })
    }
    fn abs(&self) -> Value {
        json!({"key": abs_bytes(self.key.as_bytes()), "payload": abs_opt(&self.payload, |b| abs_bytes(b))})
    }
}

impl Abs for cfgp::clientbound::CookieRequestPacket {
    fn build(v: &Value) -> R<Self> {
        Ok(Self { key: string(field(v, "key")?)? })
    }
    fn abs(&self) -> Value {
        json!({"key": abs_bytes(self.key.as_bytes())})
    }
}

impl Abs for cfgp::clientbound::DisconnectPacket {
    fn build(v: &Value) -> R<Self> {
        Ok(Self { reason: text(field(v, "reason")?)? })
    }
    fn abs(&self) -> Value {
        json!({"reason": abs_text(&self.reason)})
    }
}

impl Abs for cfgp::clientbound::KeepAlivePacket {
    fn build(v: &Value) -> R<Self> {
        Ok(Self { id: limbs(field(v, "id")?)? })
    }
    fn abs(&self) -> Value {
        json!({"id": abs_limbs(self.id)})
    }
}

impl Abs for cfgp::clientbound::PingPacket {
    fn build(v: &Value) -> R<Self> {
        Ok(Self { id: int_in(field(v, "id")?)? })
    }
    fn abs(&self) -> Value {
        json!({"id": self.id})
    }
}

impl Abs for cfgp::clientbound::AddResourcePackPacket {
    fn build(v: &Value) -> R<Self> {
        Ok(Self {
            uuid: uuid(field(v, "uuid")?)?,
            url: string(field(v, "url")?)?,
            hash: string(field(v, "hash")?)?,
            forced: boolean(field(v, "forced")?)?,
            prompt_message: opt(field(v, "prompt_message")?, text)?,
        })
    }
    fn abs(&self) -> Value {
        json!({"uuid": abs_bytes(self.uuid.as_bytes()), "url": abs_bytes(self.url.as_bytes()), "hash": abs_bytes(self.hash.as_bytes()),
               "forced": self.forced, "prompt_message": abs_opt(&self.prompt_message, abs_text)})
    }
}

impl Abs for cfgp::clientbound::StoreCookiePacket {
    fn build(v: &Value) -> R<Self> {
        Ok(Self { key: string(field(v, "key")?)?, payload: bytes(field(v, "payload")?)? })
    }
    fn abs(&self) -> Value {
        json!({"key": abs_bytes(self.key.as_bytes()), "payload": abs_bytes(&self.payload)})
    }
}

impl Abs for cfgp::clientbound::TransferPacket {
    fn build(v: &Value) -> R<Self> {
        Ok(Self { host: string(field(v, "host")?)?, port: int_in(field(v, "port")?)? })
    }
    fn abs(&self) -> Value {
        json!({"host": abs_bytes(self.host.as_bytes()), "port": self.port})
    }
}

impl Abs for cfgp::serverbound::ClientInformationPacket {
    fn build(v: &Value) -> R<Self> {
        Ok(Self {
            locale: string(field(v, "locale")?)?,
            view_distance: int_in(field(v, "view_distance")?)?,
            chat_mode: chat_mode(field(v, "chat_mode")?)?,
            chat_colors: boolean(field(v, "chat_colors")?)?,
            displayed_skin_parts: DisplayedSkinParts(int_in(field(v, "displayed_skin_parts")?)?),
            main_hand: main_hand(field(v, "main_hand")?)?,
            enable_text_filtering: boolean(field(v, "enable_text_filtering")?)?,
            allow_server_listing: boolean(field(v, "allow_server_listing")?)?,
            particle_status: particle(field(v, "particle_status")?)?,
        })
    }
    fn abs(&self) -> Value {
        json!({"locale": abs_bytes(self.locale.as_bytes()), "view_distance": self.view_distance, "chat_mode": abs_chat_mode(&self.chat_mode),
               "chat_colors": self.chat_colors, "displayed_skin_parts": self.displayed_skin_parts.0, "main_hand": abs_main_hand(&self.main_hand),
               "enable_text_filtering": self.enable_text_filtering, "allow_server_listing": self.allow_server_listing,
               "particle_status": abs_particle(&self.particle_status)})
    }
}

impl Abs for cfgp::serverbound::KeepAlivePacket {
    fn build(v: &Value) -> R<Self> {
        Ok(Self { id: limbs(field(v, "id")?)? })
    }
    fn abs(&self) -> Value {
        json!({"id": abs_limbs(self.id)})
    }
}

impl Abs for cfgp::serverbound::PongPacket {
    fn build(v: &Value) -> R<Self> {
        Ok(Self { id: int_in(field(v, "id")?)? })
    }
    fn abs(&self) -> Value {
        json!({"id": self.id})
    }
}

impl Abs for cfgp::serverbound::ResourcePackResponsePacket {
    fn build(v: &Value) -> R<Self> {
        Ok(Self { uuid: uuid(field(v, "uuid")?)?, result: rp_result(field(v, "result")?)? })
    }
    fn abs(&self) -> Value {
        json!({"uuid": abs_bytes(self.uuid.as_bytes()), "result": abs_rp_result(&self.result)})
    }
}

// ------------------------------------------------------------------------------------------------
// observations
// ------------------------------------------------------------------------------------------------

/// An `AsyncRead` over fixed bytes that hands them out in pieces of the given sizes (cyclically), never more.
struct Trickle {
    data: Vec<u8>,
    pos: usize,
    sizes: Vec<usize>,
    i: usize,
}

impl Trickle {
    fn new(data: &[u8], sizes: &[usize]) -> Self {
        Trickle { data: data.to_vec(), pos: 0, sizes: sizes.to_vec(), i: 0 }
    }
}

impl tokio::io::AsyncRead for Trickle {
    fn poll_read(mut self: std::pin::Pin<&mut Self>, _cx: &mut std::task::Context<'_>, buf: &mut tokio::io::ReadBuf<'_>) -> std::task::Poll<std::io::Result<()>> {
        let want = self.sizes[self.i % self.sizes.len()].max(1);
        self.i += 1;
        let n = want.min(buf.remaining()).min(self.data.len() - self.pos);
        let (a, b) = (self.pos, self.pos + n);
        buf.put_slice(&self.data[a..b]);
        self.pos = b;
        std::task::Poll::Ready(Ok(()))
    }
}

/// A sink that accepts the bytes it is given a few at a time (7, 1, 3, ... per call), as a socket with a nearly full send buffer does.
struct Dribble {
    got: Vec<u8>,
    i: usize,
}

impl tokio::io::AsyncWrite for Dribble {
    fn poll_write(mut self: std::pin::Pin<&mut Self>, _cx: &mut std::task::Context<'_>, buf: &[u8]) -> std::task::Poll<std::io::Result<usize>> {
        let n = [7usize, 1, 3, 64, 2][self.i % 5].min(buf.len());
        self.i += 1;
        self.got.extend_from_slice(&buf[..n]);
        std::task::Poll::Ready(Ok(n))
    }
    fn poll_flush(self: std::pin::Pin<&mut Self>, _cx: &mut std::task::Context<'_>) -> std::task::Poll<std::io::Result<()>> {
        std::task::Poll::Ready(Ok(()))
    }
    fn poll_shutdown(self: std::pin::Pin<&mut Self>, _cx: &mut std::task::Context<'_>) -> std::task::Poll<std::io::Result<()>> {
        std::task::Poll::Ready(Ok(()))
    }
}

const PIECES: [&[usize]; 2] = [&[1], &[2, 1, 5, 3, 64, 1, 1000, 7]];

#[derive(Default)]
struct Obs {
    /// decoding the same bytes from a source that delivers them in pieces gave the same result (ok-ness, value, bytes consumed)
    segmented_same: bool,
    /// what write_packet produced for the value (hex), and whether the length it reports is the number of bytes written
    framed: String,
    framed_len_reported: bool,
    /// the same frame written into a sink that takes a few bytes per call arrived there whole (same bytes, same reported length)
    framed_dribbled_same: bool,
    encoded: String,
    id: i64,
    decoded_ok: bool,
    roundtrip: bool,
    consumed_all: bool,
    decoded: Option<Value>,
    error: String,
    panic: bool,
    harness_error: String,
}

fn hex(b: &[u8]) -> String {
    b.iter().map(|x| format!("{x:02x}")).collect()
}

fn unhex(s: &str) -> R<Vec<u8>> {
    if s.len() % 2 != 0 {
        return Err("odd hex length".into());
    }
    (0..s.len() / 2).map(|i| u8::from_str_radix(&s[2 * i..2 * i + 2], 16).map_err(|e| e.to_string())).collect()
}

fn note(o: &mut Obs, what: &str, e: impl std::fmt::Display) {
    if !o.error.is_empty() {
        o.error.push_str("; ");
    }
    o.error.push_str(&format!("{what}: {e}"));
}

/// `value` = Some(abstract value): encode it and decode `wire`; None: only decode `wire` (reject vectors).
fn run_packet<T>(rt: &Runtime, value: Option<&Value>, wire: &[u8]) -> Obs
where
    T: Abs + Packet + WritePacket + ReadPacket + PartialEq + Send + Sync + std::fmt::Debug,
{
    let mut o = Obs { id: i64::from(T::ID), ..Obs::default() };
    let original = match value.map(T::build) {
        Some(Err(e)) => {
            o.harness_error = format!("cannot build the value: {e}");
            return o;
        }
        Some(Ok(p)) => Some(p),
        None => None,
    };
    if let Some(p) = &original {
        match catch_unwind(AssertUnwindSafe(|| {
            rt.block_on(async {
                let mut out: Vec<u8> = Vec::new();
                p.write_to_buffer(&mut out).await.map(|()| out)
            })
        })) {
            Ok(Ok(out)) => o.encoded = hex(&out),
            Ok(Err(e)) => note(&mut o, "encode", e),
            Err(_) => {
                o.panic = true;
                note(&mut o, "encode", "panic");
            }
        }
    }
    // the same value as a FRAME (length prefix, packet id, body) through the crate's write_packet
    if let Some(Ok(p2)) = value.map(T::build) {
        match catch_unwind(AssertUnwindSafe(|| {
            rt.block_on(async {
                let mut out: Vec<u8> = Vec::new();
                out.write_packet(p2).await.map(|n| (out, n))
            })
        })) {
            Ok(Ok((out, n))) => {
                o.framed = hex(&out);
                o.framed_len_reported = n == out.len();
                o.framed_dribbled_same = match value.map(T::build) {
                    Some(Ok(p3)) => catch_unwind(AssertUnwindSafe(|| {
                        rt.block_on(async {
                            let mut sink = Dribble { got: vec![], i: 0 };
                            let r = sink.write_packet(p3).await;
                            matches!(r, Ok(m) if m == out.len()) && sink.got == out
                        })
                    }))
                    .unwrap_or(false),
                    _ => false,
                };
            }
            Ok(Err(e)) => note(&mut o, "frame", e),
            Err(_) => {
                o.panic = true;
                note(&mut o, "frame", "panic");
            }
        }
    }
    match catch_unwind(AssertUnwindSafe(|| {
        rt.block_on(async {
            let mut cur = Cursor::new(wire.to_vec());
            let r = T::read_from_buffer(&mut cur).await;
            (r, cur.position() as usize)
        })
    })) {
        Ok((Ok(p), pos)) => {
            o.decoded_ok = true;
            o.consumed_all = pos == wire.len();
            o.roundtrip = original.as_ref().is_some_and(|orig| *orig == p);
            o.decoded = Some(p.abs());
        }
        Ok((Err(e), _)) => note(&mut o, "decode", e),
        Err(_) => {
            o.panic = true;
            note(&mut o, "decode", "panic");
        }
    }
    // the same bytes from a source that delivers them in pieces
    o.segmented_same = PIECES.iter().all(|sizes| {
        match catch_unwind(AssertUnwindSafe(|| {
            rt.block_on(async {
                let mut src = Trickle::new(wire, sizes);
                let r = T::read_from_buffer(&mut src).await;
                (r, src.pos)
            })
        })) {
            Ok((Ok(p), pos)) => o.decoded_ok && Some(p.abs()) == o.decoded && (pos == wire.len()) == o.consumed_all,
            Ok((Err(_), _)) => !o.decoded_ok && !o.panic,
            Err(_) => o.panic,
        }
    });
    o
}

fn run_varint(rt: &Runtime, value: Option<i32>, wire: &[u8]) -> Obs {
    let mut o = Obs::default();
    if let Some(v) = value {
        match catch_unwind(AssertUnwindSafe(|| {
            rt.block_on(async {
                let mut out: Vec<u8> = Vec::new();
                out.write_varint(v).await.map(|()| out)
            })
        })) {
            Ok(Ok(out)) => o.encoded = hex(&out),
            Ok(Err(e)) => note(&mut o, "encode", e),
            Err(_) => {
                o.panic = true;
                note(&mut o, "encode", "panic");
            }
        }
    }
    match catch_unwind(AssertUnwindSafe(|| {
        rt.block_on(async {
            let mut cur = Cursor::new(wire.to_vec());
            let r = cur.read_varint().await;
            (r, cur.position() as usize)
        })
    })) {
        Ok((Ok(x), pos)) => {
            o.decoded_ok = true;
            o.consumed_all = pos == wire.len();
            o.roundtrip = value == Some(x);
            o.decoded = Some(json!({"v": x}));
        }
        Ok((Err(e), _)) => note(&mut o, "decode", e),
        Err(_) => {
            o.panic = true;
            note(&mut o, "decode", "panic");
        }
    }
    o.segmented_same = PIECES.iter().all(|sizes| {
        match catch_unwind(AssertUnwindSafe(|| {
            rt.block_on(async {
                let mut src = Trickle::new(wire, sizes);
                let r = src.read_varint().await;
                (r, src.pos)
            })
        })) {
            Ok((Ok(x), pos)) => o.decoded_ok && Some(json!({"v": x})) == o.decoded && (pos == wire.len()) == o.consumed_all,
            Ok((Err(_), _)) => !o.decoded_ok && !o.panic,
            Err(_) => o.panic,
        }
    });
    o
}

fn run_varlong(rt: &Runtime, value: Option<i64>, wire: &[u8]) -> Obs {
    let mut o = Obs::default();
    if let Some(v) = value {
        match catch_unwind(AssertUnwindSafe(|| {
            rt.block_on(async {
                let mut out: Vec<u8> = Vec::new();
                out.write_varlong(v).await.map(|()| out)
            })
        })) {
            Ok(Ok(out)) => o.encoded = hex(&out),
            Ok(Err(e)) => note(&mut o, "encode", e),
            Err(_) => {
                o.panic = true;
                note(&mut o, "encode", "panic");
            }
        }
    }
    match catch_unwind(AssertUnwindSafe(|| {
        rt.block_on(async {
            let mut cur = Cursor::new(wire.to_vec());
            let r = cur.read_varlong().await;
            (r, cur.position() as usize)
        })
    })) {
        Ok((Ok(x), pos)) => {
            o.decoded_ok = true;
            o.consumed_all = pos == wire.len();
            o.roundtrip = value == Some(x);
            o.decoded = Some(json!({"l": abs_limbs(x as u64)}));
        }
        Ok((Err(e), _)) => note(&mut o, "decode", e),
        Err(_) => {
            o.panic = true;
            note(&mut o, "decode", "panic");
        }
    }
    o.segmented_same = PIECES.iter().all(|sizes| {
        match catch_unwind(AssertUnwindSafe(|| {
            rt.block_on(async {
                let mut src = Trickle::new(wire, sizes);
                let r = src.read_varlong().await;
                (r, src.pos)
            })
        })) {
            Ok((Ok(x), pos)) => o.decoded_ok && Some(json!({"l": abs_limbs(x as u64)})) == o.decoded && (pos == wire.len()) == o.consumed_all,
            Ok((Err(_), _)) => !o.decoded_ok && !o.panic,
            Err(_) => o.panic,
        }
    });
    o
}

fn dispatch(rt: &Runtime, phase: &str, dir: &str, ty: &str, value: Option<&Value>, wire: &[u8]) -> Obs {
    macro_rules! table {
        ($(($p:literal, $d:literal, $t:literal, $ty:ty)),*) => {
            match (phase, dir, ty) {
                $(($p, $d, $t) => run_packet::<$ty>(rt, value, wire),)*
                _ => Obs { harness_error: format!("other:unknown packet type {phase}.{dir}.{ty}"), ..Obs::default() },
            }
        };
    }
    table!(
        ("handshake", "serverbound", "HandshakePacket", hsp::serverbound::HandshakePacket),
        ("status", "clientbound", "StatusResponsePacket", stp::clientbound::StatusResponsePacket),
        ("status", "clientbound", "PongPacket", stp::clientbound::PongPacket),
        ("status", "serverbound", "StatusRequestPacket", stp::serverbound::StatusRequestPacket),
        ("status", "serverbound", "PingPacket", stp::serverbound::PingPacket),
        ("login", "clientbound", "DisconnectPacket", lgp::clientbound::DisconnectPacket),
        ("login", "clientbound", "EncryptionRequestPacket", lgp::clientbound::EncryptionRequestPacket),
        ("login", "clientbound", "LoginSuccessPacket", lgp::clientbound::LoginSuccessPacket),
        ("login", "clientbound", "SetCompressionPacket", lgp::clientbound::SetCompressionPacket),
        ("login", "clientbound", "LoginPluginRequestPacket", lgp::clientbound::LoginPluginRequestPacket),
        ("login", "clientbound", "CookieRequestPacket", lgp::clientbound::CookieRequestPacket),
        ("login", "serverbound", "LoginStartPacket", lgp::serverbound::LoginStartPacket),
        ("login", "serverbound", "EncryptionResponsePacket", lgp::serverbound::EncryptionResponsePacket),
        ("login", "serverbound", "LoginPluginResponsePacket", lgp::serverbound::LoginPluginResponsePacket),
        ("login", "serverbound", "LoginAcknowledgedPacket", lgp::serverbound::LoginAcknowledgedPacket),
        ("login", "serverbound", "CookieResponsePacket", lgp::serverbound::CookieResponsePacket),
        ("configuration", "clientbound", "CookieRequestPacket", cfgp::clientbound::CookieRequestPacket),
        ("configuration", "clientbound", "PluginMessagePacket", cfgp::clientbound::PluginMessagePacket),
        ("configuration", "clientbound", "DisconnectPacket", cfgp::clientbound::DisconnectPacket),
        ("configuration", "clientbound", "FinishConfigurationPacket", cfgp::clientbound::FinishConfigurationPacket),
        ("configuration", "clientbound", "KeepAlivePacket", cfgp::clientbound::KeepAlivePacket),
        ("configuration", "clientbound", "PingPacket", cfgp::clientbound::PingPacket),
        ("configuration", "clientbound", "ResetChatPacket", cfgp::clientbound::ResetChatPacket),
        ("configuration", "clientbound", "RegistryDataPacket", cfgp::clientbound::RegistryDataPacket),
        ("configuration", "clientbound", "RemoveResourcePackPacket", cfgp::clientbound::RemoveResourcePackPacket),
        ("configuration", "clientbound", "AddResourcePackPacket", cfgp::clientbound::AddResourcePackPacket),
        ("configuration", "clientbound", "StoreCookiePacket", cfgp::clientbound::StoreCookiePacket),
        ("configuration", "clientbound", "TransferPacket", cfgp::clientbound::TransferPacket),
        ("configuration", "clientbound", "FeatureFlagsPacket", cfgp::clientbound::FeatureFlagsPacket),
        ("configuration", "clientbound", "UpdateTagsPacket", cfgp::clientbound::UpdateTagsPacket),
        ("configuration", "clientbound", "KnownPacksPacket", cfgp::clientbound::KnownPacksPacket),
        ("configuration", "clientbound", "CustomReportDetailsPacket", cfgp::clientbound::CustomReportDetailsPacket),
        ("configuration", "clientbound", "ServerLinksPacket", cfgp::clientbound::ServerLinksPacket),
        ("configuration", "serverbound", "ClientInformationPacket", cfgp::serverbound::ClientInformationPacket),
        ("configuration", "serverbound", "CookieResponsePacket", cfgp::serverbound::CookieResponsePacket),
        ("configuration", "serverbound", "PluginMessagePacket", cfgp::serverbound::PluginMessagePacket),
        ("configuration", "serverbound", "AckFinishConfigurationPacket", cfgp::serverbound::AckFinishConfigurationPacket),
        ("configuration", "serverbound", "KeepAlivePacket", cfgp::serverbound::KeepAlivePacket),
        ("configuration", "serverbound", "PongPacket", cfgp::serverbound::PongPacket),
        ("configuration", "serverbound", "ResourcePackResponsePacket", cfgp::serverbound::ResourcePackResponsePacket),
        ("configuration", "serverbound", "KnownPacksPacket", cfgp::serverbound::KnownPacksPacket)
    )
}

fn run_vector(rt: &Runtime, vec: &Value) -> Obs {
    let s = |k: &str| vec.get(k).and_then(Value::as_str).unwrap_or("");
    let wire = match unhex(s("bytes")) {
        Ok(w) => w,
        Err(e) => return Obs { harness_error: format!("bad bytes: {e}"), ..Obs::default() },
    };
    let value = vec.get("value").unwrap_or(&Value::Null);
    match (s("kind"), s("type")) {
        ("packet", ty) => dispatch(rt, s("phase"), s("dir"), ty, Some(value), &wire),
        ("reject", ty) => dispatch(rt, s("phase"), s("dir"), ty, None, &wire),
        ("varint", _) => match field(value, "v").and_then(int_in::<i32>) {
            Ok(v) => run_varint(rt, Some(v), &wire),
            Err(e) => Obs { harness_error: e, ..Obs::default() },
        },
        ("varlong", _) => match field(value, "l").and_then(limbs) {
            Ok(l) => run_varlong(rt, Some(l as i64), &wire),
            Err(e) => Obs { harness_error: e, ..Obs::default() },
        },
        ("overlong", "VarInt") => run_varint(rt, None, &wire),
        ("overlong", "VarLong") => run_varlong(rt, None, &wire),
        (k, t) => Obs { harness_error: format!("other:unknown vector kind {k}/{t}"), ..Obs::default() },
    }
}

pub fn main(args: &[String]) {
    let mut input = None;
    let mut output = None;
    let mut it = args.iter();
    while let Some(a) = it.next() {
        match a.as_str() {
            "--in" => input = it.next().cloned(),
            "--out" => output = it.next().cloned(),
            _ => {}
        }
    }
    let text = std::fs::read_to_string(input.expect("--in")).expect("read input");
    let mut out = std::io::BufWriter::new(std::fs::File::create(output.expect("--out")).expect("create output"));
    std::panic::set_hook(Box::new(|_| {}));
    let rt = tokio::runtime::Builder::new_current_thread().build().expect("runtime");
    let mut line = 0usize;
    for l in text.lines().filter(|l| !l.trim().is_empty()) {
        line += 1;
        let vec: Value = serde_json::from_str(l).expect("json");
        let o = run_vector(&rt, &vec);
        let rec = json!({
            "line": line,
            "kind": vec.get("kind").cloned().unwrap_or(json!("")),
            "type": vec.get("type").cloned().unwrap_or(json!("")),
            "encoded": o.encoded,
            "decoded_ok": o.decoded_ok,
            "decoded_value_roundtrip": o.roundtrip,
            "consumed_all": o.consumed_all,
            "segmented_same": o.segmented_same,
            "framed": o.framed,
            "framed_len_reported": o.framed_len_reported,
            "framed_dribbled_same": o.framed_dribbled_same,
            "id": o.id,
            "error": o.error,
            "panic": o.panic,
            "decoded": o.decoded.unwrap_or(json!([])),
            "harness_error": o.harness_error,
            "vec": vec,
        });
        writeln!(out, "{rec}").expect("write");
    }
    out.flush().expect("flush");
}
