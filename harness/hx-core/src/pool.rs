//! Worker pool with a wall-clock watchdog: code under test that spins forever (never yields) must become an
//! observation ("still running"), not a hang of the harness. A stuck worker thread is abandoned (it keeps spinning
//! until the process exits) and replaced; after a few stuck items the remaining items are skipped.
use std::collections::HashMap;
use std::sync::atomic::{AtomicUsize, Ordering};
use std::sync::{Arc, Mutex};
use std::time::{Duration, Instant};

pub fn run_pool<F, S>(n_items: usize, threads: usize, limit: Duration, work: F, stuck: S) -> Vec<(usize, String)>
where
    F: Fn(usize) -> String + Send + Sync + 'static,
    S: Fn(usize) -> String,
{
    let work = Arc::new(work);
    let next = Arc::new(AtomicUsize::new(0));
    let alive = Arc::new(AtomicUsize::new(0));
    let results: Arc<Mutex<Vec<(usize, String)>>> = Arc::new(Mutex::new(vec![]));
    let slots: Arc<Mutex<HashMap<usize, (Instant, usize)>>> = Arc::new(Mutex::new(HashMap::new()));
    let spawn = |id: usize| {
        let (work, next, alive, results, slots) = (work.clone(), next.clone(), alive.clone(), results.clone(), slots.clone());
        alive.fetch_add(1, Ordering::SeqCst);
        std::thread::spawn(move || {
            loop {
                let k = next.fetch_add(1, Ordering::SeqCst);
                if k >= n_items {
                    break;
                }
                slots.lock().unwrap().insert(id, (Instant::now(), k));
                let r = work(k);
                if slots.lock().unwrap().remove(&id).is_some() {
                    results.lock().unwrap().push((k, r));
                } else {
                    return; // abandoned by the watchdog, which already accounted for this thread
                }
            }
            alive.fetch_sub(1, Ordering::SeqCst);
        });
    };
    let mut ids = 0;
    for _ in 0..threads.max(1) {
        spawn(ids);
        ids += 1;
    }
    let mut n_stuck = 0;
    while alive.load(Ordering::SeqCst) > 0 {
        std::thread::sleep(Duration::from_millis(50));
        let overdue: Vec<(usize, usize)> = slots.lock().unwrap().iter().filter(|(_, (t, _))| t.elapsed() > limit).map(|(id, (_, k))| (*id, *k)).collect();
        for (id, k) in overdue {
            if slots.lock().unwrap().remove(&id).is_none() {
                continue; // finished in the meantime
            }
            results.lock().unwrap().push((k, stuck(k)));
            alive.fetch_sub(1, Ordering::SeqCst);
            n_stuck += 1;
            if n_stuck >= 3 {
                next.store(n_items, Ordering::SeqCst); // enough evidence; do not burn more cores
            } else {
                spawn(ids);
                ids += 1;
            }
        }
    }
    let mut r = std::mem::take(&mut *results.lock().unwrap());
    r.sort();
    r
}
