//! hx: conformance harness between the TLA+ specification in /verif/spec and the code in /repo.
mod alloc;
mod builtins;
mod cipher;
mod conn;
mod hash;
mod mock;
mod pool;
#[allow(unused_imports)]
pub(crate) use hx_core::refcodec;
#[allow(unused_imports)]
pub(crate) use hx_core::tcpclient;
mod listener;
mod rl;
mod wire;

#[global_allocator]
static GLOBAL: alloc::Counting = alloc::Counting;

fn main() {
    let args: Vec<String> = std::env::args().collect();
    let sub = args.get(1).map(|s| s.as_str()).unwrap_or("");
    match sub {
        "builtins" => builtins::main(&args[2..]),
        "cipher" => cipher::main(&args[2..]),
        "conn" => conn::main(&args[2..]),
        "conn-timed" => conn::main_timed(&args[2..]),
        "hash" => hash::main(&args[2..]),
        "listener" => listener::main(&args[2..]),
        "rl" => rl::main(&args[2..]),
        "wire" => wire::main(&args[2..]),
        _ => {
            eprintln!("usage: hx <conn|...> [options]");
            std::process::exit(2);
        }
    }
}
