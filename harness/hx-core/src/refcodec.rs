//! Reference implementations written from the protocol description, independent of the code under
//! test: VarInt / string / frame codec, AES-128-CFB8 on the raw block function, HMAC-SHA256.
#![allow(dead_code)]

use aes::Aes128;
use aes::cipher::{BlockEncrypt, KeyInit, generic_array::GenericArray};
use sha2::{Digest, Sha256};

// ---------------------------------------------------------------------------------------------
// VarInt and friends
// ---------------------------------------------------------------------------------------------

pub fn put_varint(out: &mut Vec<u8>, v: i32) {
    let mut u = v as u32;
    loop {
        let b = (u & 0x7f) as u8;
        u >>= 7;
        if u == 0 {
            out.push(b);
            return;
        }
        out.push(b | 0x80);
    }
}

pub fn put_varlong(out: &mut Vec<u8>, v: i64) {
    let mut u = v as u64;
    loop {
        let b = (u & 0x7f) as u8;
        u >>= 7;
        if u == 0 {
            out.push(b);
            return;
        }
        out.push(b | 0x80);
    }
}

pub fn put_string(out: &mut Vec<u8>, s: &str) {
    put_varint(out, s.len() as i32);
    out.extend_from_slice(s.as_bytes());
}

pub fn put_bytes(out: &mut Vec<u8>, b: &[u8]) {
    put_varint(out, b.len() as i32);
    out.extend_from_slice(b);
}

/// A whole frame: length prefix, packet id, body.
pub fn frame(id: i32, body: &[u8]) -> Vec<u8> {
    let mut inner = Vec::new();
    put_varint(&mut inner, id);
    inner.extend_from_slice(body);
    let mut out = Vec::new();
    put_varint(&mut out, inner.len() as i32);
    out.extend_from_slice(&inner);
    out
}

#[derive(Debug)]
pub struct Cur<'a> {
    pub b: &'a [u8],
    pub p: usize,
}

impl<'a> Cur<'a> {
    pub fn new(b: &'a [u8]) -> Self {
        Self { b, p: 0 }
    }
    pub fn rest(&self) -> usize {
        self.b.len() - self.p
    }
    pub fn u8(&mut self) -> Option<u8> {
        let v = *self.b.get(self.p)?;
        self.p += 1;
        Some(v)
    }
    pub fn take(&mut self, n: usize) -> Option<&'a [u8]> {
        if self.rest() < n {
            return None;
        }
        let s = &self.b[self.p..self.p + n];
        self.p += n;
        Some(s)
    }
    pub fn varint(&mut self) -> Option<i32> {
        let mut v: u32 = 0;
        for i in 0..5 {
            let b = self.u8()?;
            v |= ((b & 0x7f) as u32) << (7 * i);
            if b & 0x80 == 0 {
                return Some(v as i32);
            }
        }
        None
    }
    pub fn string(&mut self) -> Option<String> {
        let n = self.varint()?;
        if n < 0 {
            return None;
        }
        let s = self.take(n as usize)?;
        String::from_utf8(s.to_vec()).ok()
    }
    pub fn bytes(&mut self) -> Option<Vec<u8>> {
        let n = self.varint()?;
        if n < 0 {
            return None;
        }
        Some(self.take(n as usize)?.to_vec())
    }
    pub fn bool(&mut self) -> Option<bool> {
        Some(self.u8()? != 0)
    }
    pub fn u16(&mut self) -> Option<u16> {
        let s = self.take(2)?;
        Some(u16::from_be_bytes([s[0], s[1]]))
    }
    pub fn u64(&mut self) -> Option<u64> {
        let s = self.take(8)?;
        let mut a = [0u8; 8];
        a.copy_from_slice(s);
        Some(u64::from_be_bytes(a))
    }
    pub fn u128(&mut self) -> Option<u128> {
        let s = self.take(16)?;
        let mut a = [0u8; 16];
        a.copy_from_slice(s);
        Some(u128::from_be_bytes(a))
    }
}

/// Splits complete frames off the front of `buf`; returns (id, body) pairs and the number of
/// bytes consumed. A malformed length prefix stops the split (the rest stays in the buffer).
/// Java "modified UTF-8" (DataInput): NUL as C0 80, supplementary characters as two 3-byte surrogates, no 4-byte forms.
pub fn mutf8_decode(b: &[u8]) -> Option<String> {
    let mut units: Vec<u16> = Vec::new();
    let mut i = 0;
    while i < b.len() {
        let x = b[i];
        if x & 0x80 == 0 {
            if x == 0 {
                return None;
            }
            units.push(x as u16);
            i += 1;
        } else if x & 0xE0 == 0xC0 {
            let y = *b.get(i + 1)?;
            if y & 0xC0 != 0x80 {
                return None;
            }
            units.push((((x & 0x1F) as u16) << 6) | (y & 0x3F) as u16);
            i += 2;
        } else if x & 0xF0 == 0xE0 {
            let (y, z) = (*b.get(i + 1)?, *b.get(i + 2)?);
            if y & 0xC0 != 0x80 || z & 0xC0 != 0x80 {
                return None;
            }
            units.push((((x & 0x0F) as u16) << 12) | (((y & 0x3F) as u16) << 6) | (z & 0x3F) as u16);
            i += 3;
        } else {
            return None;
        }
    }
    String::from_utf16(&units).ok()
}

pub fn split_frames(buf: &[u8]) -> (Vec<(i32, Vec<u8>)>, usize) {
    let mut out = Vec::new();
    let mut pos = 0;
    loop {
        let mut c = Cur::new(&buf[pos..]);
        let Some(len) = c.varint() else { break };
        if len <= 0 {
            break;
        }
        let Some(inner) = c.take(len as usize) else { break };
        let mut ic = Cur::new(inner);
        let Some(id) = ic.varint() else { break };
        out.push((id, inner[ic.p..].to_vec()));
        pos += c.p;
    }
    (out, pos)
}

// ---------------------------------------------------------------------------------------------
// AES-128-CFB8, one continuous stream, key = IV = shared secret
// ---------------------------------------------------------------------------------------------

#[derive(Clone)]
pub struct RefCfb8 {
    aes: Aes128,
    reg: [u8; 16],
}

impl RefCfb8 {
    pub fn new(secret: &[u8; 16]) -> Self {
        Self {
            aes: Aes128::new(GenericArray::from_slice(secret)),
            reg: *secret,
        }
    }
    fn keystream_byte(&self) -> u8 {
        let mut block = GenericArray::clone_from_slice(&self.reg);
        self.aes.encrypt_block(&mut block);
        block[0]
    }
    fn shift(&mut self, cipher_byte: u8) {
        self.reg.copy_within(1.., 0);
        self.reg[15] = cipher_byte;
    }
    pub fn encrypt(&mut self, data: &[u8]) -> Vec<u8> {
        data.iter()
            .map(|p| {
                let c = p ^ self.keystream_byte();
                self.shift(c);
                c
            })
            .collect()
    }
    pub fn decrypt(&mut self, data: &[u8]) -> Vec<u8> {
        data.iter()
            .map(|c| {
                let p = c ^ self.keystream_byte();
                self.shift(*c);
                p
            })
            .collect()
    }
}

// ---------------------------------------------------------------------------------------------
// HMAC-SHA256 (RFC 2104) on top of the plain hash
// ---------------------------------------------------------------------------------------------

pub fn hmac_sha256(key: &[u8], msg: &[u8]) -> [u8; 32] {
    let mut k = [0u8; 64];
    if key.len() > 64 {
        let d = Sha256::digest(key);
        k[..32].copy_from_slice(&d);
    } else {
        k[..key.len()].copy_from_slice(key);
    }
    let mut inner = Sha256::new();
    inner.update(k.iter().map(|b| b ^ 0x36).collect::<Vec<u8>>());
    inner.update(msg);
    let ih = inner.finalize();
    let mut outer = Sha256::new();
    outer.update(k.iter().map(|b| b ^ 0x5c).collect::<Vec<u8>>());
    outer.update(ih);
    let mut out = [0u8; 32];
    out.copy_from_slice(&outer.finalize());
    out
}

pub fn ref_sign(msg: &[u8], secret: &[u8]) -> Vec<u8> {
    let mut v = hmac_sha256(secret, msg).to_vec();
    v.extend_from_slice(msg);
    v
}

pub fn ref_verify(signed: &[u8], secret: &[u8]) -> bool {
    signed.len() >= 32 && hmac_sha256(secret, &signed[32..])[..] == signed[..32]
}

pub fn hex(b: &[u8]) -> String {
    b.iter().map(|x| format!("{x:02x}")).collect()
}

pub fn unhex(s: &str) -> Vec<u8> {
    (0..s.len() / 2)
        .map(|i| u8::from_str_radix(&s[2 * i..2 * i + 2], 16).unwrap())
        .collect()
}

/// Small deterministic PRNG (splitmix64) so runs are reproducible from VERIF_SEED alone.
#[derive(Clone)]
pub struct Rng(pub u64);
impl Rng {
    pub fn new(seed: u64) -> Self {
        Self(seed ^ 0x9E37_79B9_7F4A_7C15)
    }
    pub fn next(&mut self) -> u64 {
        self.0 = self.0.wrapping_add(0x9E37_79B9_7F4A_7C15);
        let mut z = self.0;
        z = (z ^ (z >> 30)).wrapping_mul(0xBF58_476D_1CE4_E5B9);
        z = (z ^ (z >> 27)).wrapping_mul(0x94D0_49BB_1331_11EB);
        z ^ (z >> 31)
    }
    pub fn below(&mut self, n: u64) -> u64 {
        if n == 0 { 0 } else { self.next() % n }
    }
    pub fn bytes(&mut self, n: usize) -> Vec<u8> {
        (0..n).map(|_| self.next() as u8).collect()
    }
    pub fn pick<'a, T>(&mut self, v: &'a [T]) -> &'a T {
        &v[self.below(v.len() as u64) as usize]
    }
}
