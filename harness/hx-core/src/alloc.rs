//! Counting global allocator: per-thread largest single request and peak live bytes since the last reset.
use std::alloc::{GlobalAlloc, Layout, System};
use std::cell::Cell;

pub struct Counting;

thread_local! {
    static MAX_SINGLE: Cell<usize> = const { Cell::new(0) };
    static LIVE: Cell<isize> = const { Cell::new(0) };
    static PEAK: Cell<isize> = const { Cell::new(0) };
}

fn on_alloc(n: usize) {
    let _ = MAX_SINGLE.try_with(|m| {
        if n > m.get() {
            m.set(n)
        }
    });
    let _ = LIVE.try_with(|l| {
        let v = l.get() + n as isize;
        l.set(v);
        let _ = PEAK.try_with(|p| {
            if v > p.get() {
                p.set(v)
            }
        });
    });
}
fn on_free(n: usize) {
    let _ = LIVE.try_with(|l| l.set(l.get() - n as isize));
}

unsafe impl GlobalAlloc for Counting {
    unsafe fn alloc(&self, l: Layout) -> *mut u8 {
        on_alloc(l.size());
        unsafe { System.alloc(l) }
    }
    unsafe fn alloc_zeroed(&self, l: Layout) -> *mut u8 {
        on_alloc(l.size());
        unsafe { System.alloc_zeroed(l) }
    }
    unsafe fn dealloc(&self, p: *mut u8, l: Layout) {
        on_free(l.size());
        unsafe { System.dealloc(p, l) }
    }
    unsafe fn realloc(&self, p: *mut u8, l: Layout, new: usize) -> *mut u8 {
        on_alloc(new);
        on_free(l.size());
        unsafe { System.realloc(p, l, new) }
    }
}

pub fn reset() {
    MAX_SINGLE.with(|m| m.set(0));
    LIVE.with(|l| l.set(0));
    PEAK.with(|p| p.set(0));
}
pub fn max_single() -> usize {
    MAX_SINGLE.with(|m| m.get())
}
pub fn peak_live() -> usize {
    PEAK.with(|p| p.get().max(0) as usize)
}
